"""C14 — Ray-geometry caching is transparent for every sequence of queries.

Proof side : Props/C14.v — the state machine Model/Cache.v (cache keyed by (method,
             resolved index), finals, heap of arrays with writeable flags, the 17 query
             methods with their call graph and None/ValueError/IndexError branches,
             Cache/NoCache, the two clears, precompute, the model clients) satisfies for
             EVERY history: cache_inv, cache_transparent (answers = closed-form answer of a
             fresh object), neg_index_interchangeable, mutate_fails, clear_keeps_finals.
Tie        : histories (exhaustive over an alphabet + random) are executed on real
             arim.ray.RayGeometry objects built from synthetic paths with 2..5 interfaces.
             After every step:
             (a) the outcome (array hash / None / error kind) is compared with the outcome
                 of a FRESH use_cache=False object for the same request  [spec predicate];
             (b) the outcome kind, set(rg._cache), rg._final_keys and the identity partition
                 of the returned objects are compared with the Coq state machine evaluated
                 by vm_compute inside coqc (also for a use_cache=False object with history);
             (c) every returned array is attacked with in-place writes (must raise);
             (d) every cached value is compared with the fresh uncached answer of its key
                 and must be read-only; finals must be a subset of the keys.
"""
import hashlib
import itertools
import json
import os
import sys
import warnings

import numpy as np

from common import Check, cZ, clist, cpair

chk = Check("C14", design_ref="DESIGN.md §5 C14")
chk.proofs(extra_trusted=[
    "harness/prop_C14.py: synthetic Interface/Path/Rays construction, execution of histories, "
    "array hashing (sha1 of bytes+shape+dtype), identity classes by id() of objects kept alive",
    "modelled, not verified: numpy's writeable-flag semantics (a caller can reset flags.writeable=True on an "
    "owning array; the property speaks of accidental in-place writes), Python dict/set semantics",
])
arim = chk.import_arim()
import arim.ray, arim.model, arim.geometry as g, arim.helpers  # noqa: E402
import arim.core as core  # noqa: E402
import numba  # noqa: E402

# _signed_leg_angle is a numba parallel ufunc: on tiny arrays the thread pool only costs time
# (20 ms per call on a loaded machine); elementwise results do not depend on the thread count
numba.set_num_threads(1)

rng = chk.rng
Q = chk.tier == "quick"

METHS = ["leg_points", "orientations_of_legs_points", "inc_leg_size", "inc_leg_cartesian", "inc_leg_radius",
         "inc_leg_polar", "inc_leg_azimuth", "inc_angle", "signed_inc_angle", "conventional_inc_angle",
         "out_leg_cartesian", "out_leg_radius", "out_leg_polar", "out_leg_azimuth", "out_angle",
         "signed_out_angle", "conventional_out_angle"]
MCODE = {m: i for i, m in enumerate(METHS)}
CLIENTS = ["beamspread_2d_for_path", "reverse_beamspread_2d_for_path", "transmission_reflection_for_path",
           "reverse_transmission_reflection_for_path"]

# the decorated methods of the class under test must be exactly the 17 modelled ones
decorated = sorted(n for n, f in vars(arim.ray.RayGeometry).items()
                   if callable(f) and getattr(f, "__name__", "") == "wrapper")
if decorated != sorted(METHS):
    chk.violation("methods", "the set of cached RayGeometry methods differs from the modelled 17",
                  {"theorem_or_correspondence": "Model.Cache.meth", "decorated": decorated, "modelled": sorted(METHS)},
                  failing_input_found=False)


def ahash(x):
    """hash of an answer: None, ndarray or Points"""
    if x is None:
        return "None"
    a = x.coords if isinstance(x, g.Points) else np.asarray(x)
    hh = hashlib.sha1()
    hh.update(str(a.shape).encode() + str(a.dtype).encode())
    hh.update(np.ascontiguousarray(a).tobytes())
    return hh.hexdigest()[:20]


def arr_of(x):
    return x.coords if isinstance(x, g.Points) else x


def ecode(e):
    if isinstance(e, IndexError):
        return 2
    if isinstance(e, ValueError):
        return 3
    if isinstance(e, (TypeError, AttributeError)):
        return 8
    return 9


# ---------------------------------------------------------------------------
# geometries
# ---------------------------------------------------------------------------
couplant = arim.Material(longitudinal_vel=1480.0, density=1000.0, state_of_matter="liquid")
block = arim.Material(longitudinal_vel=6320.0, transverse_vel=3130.0, density=2700.0, state_of_matter="solid")


pending_geom_violations = []


class Geom:
    def __init__(self, N, flags, seed_rng):
        self.N = N
        self.flags = flags  # list of (inc, out) with values None/True/False
        sizes = [int(seed_rng.integers(1, 4)) for _ in range(N)]
        interfaces = []
        for k in range(N):
            xyz = seed_rng.integers(-16, 17, size=(sizes[k], 3)).astype(float) * 2.0 ** -4
            xyz[:, 1] = 0.0 if seed_rng.random() < 0.5 else xyz[:, 1]
            xyz[:, 2] += 5.0 * k * (1 if k < 3 else -0.5)
            pts = g.Points(xyz, name=f"I{k}")
            ori = g.default_orientations(pts)
            ori = ori.rotate(g.rotation_matrix_y(float(seed_rng.uniform(-1.0, 1.0))))
            kw = {}
            if 0 < k < N - 1:
                if k == 1:
                    kw = dict(kind="fluid_solid", transmission_reflection="transmission")
                else:
                    kw = dict(kind="solid_fluid", transmission_reflection="reflection", reflection_against=couplant)
            itf = arim.Interface(pts, ori, are_normals_on_inc_rays_side=flags[k][0],
                                 are_normals_on_out_rays_side=flags[k][1], **kw)
            interfaces.append(itf)
        materials = [couplant] + [block] * (N - 2)
        modes = [core.Mode.L] + [core.Mode.L if seed_rng.random() < 0.5 else core.Mode.T for _ in range(N - 2)]
        self.path = arim.Path(interfaces, materials, modes, name="synthetic")
        shape = (sizes[0], sizes[-1])
        interior = np.zeros((N - 2, *shape), arim.settings.INT)
        for k in range(1, N - 1):
            interior[k - 1] = seed_rng.integers(0, sizes[k], size=shape)
        times = np.full(shape, np.nan)
        self.path.rays = arim.ray.Rays(times, interior, self.path.to_fermat_path())
        # table of the answers of FRESH uncached objects
        self.fresh = {}
        for m in METHS:
            for raw in range(-N - 2, N + 2):
                self.fresh[(m, raw)] = self.fresh_answer(m, raw)
        self.fresh_client = {c: self.fresh_client_answer(c) for c in range(4)}
        # spec predicate: negative and non-negative spellings of an index are interchangeable
        # on fresh objects, and indices outside [-N, N) raise IndexError
        for m in METHS:
            for raw in range(-N, 0):
                if self.fresh[(m, raw)] != self.fresh[(m, raw + N)]:
                    pending_geom_violations.append((self, "neg-index", f"fresh object: {m}({raw}) answers "
                                                    f"{self.fresh[(m, raw)]} but {m}({raw + N}) answers {self.fresh[(m, raw + N)]}",
                                                    [(0, MCODE[m], raw, True, 0), (0, MCODE[m], raw + N, True, 0)]))
            for raw in (-N - 2, -N - 1, N, N + 1):
                if self.fresh[(m, raw)][0] != 2:
                    pending_geom_violations.append((self, "index-range", f"fresh object: {m}({raw}) answers "
                                                    f"{self.fresh[(m, raw)]} instead of raising IndexError",
                                                    [(0, MCODE[m], raw, True, 0)]))

    def rg(self, use_cache=True):
        return arim.ray.RayGeometry.from_path(self.path, use_cache=use_cache)

    def fresh_answer(self, m, raw):
        o = self.rg(use_cache=False)
        try:
            r = getattr(o, m)(raw)
        except Exception as e:  # noqa: BLE001
            return (ecode(e), type(e).__name__)
        return (0, "None") if r is None else (1, ahash(r))

    def call_client(self, c, rgo):
        f = getattr(arim.model, CLIENTS[c])
        if c < 2:
            return f(rgo)
        return f(self.path, rgo)

    def fresh_client_answer(self, c):
        try:
            r = self.call_client(c, self.rg(use_cache=False))
        except Exception as e:  # noqa: BLE001
            return (ecode(e), type(e).__name__)
        return (7, ahash(r))

    def pflags(self):
        enc = lambda v: 2 if v is None else (1 if v else 0)
        return clist([cZ(enc(a) + 3 * enc(b)) for a, b in self.flags])

    def cflags(self):
        enc = lambda v: 2 if v is None else (1 if v else 0)
        return clist([cpair(cZ(enc(a)), cZ(enc(b))) for a, b in self.flags])


def try_writes(x):
    """attack a returned object with in-place writes; returns the list of routes that
    succeeded (must be empty)."""
    ok = []
    a = arr_of(x)
    if a.size == 0:
        return ok
    routes = [
        ("setitem", lambda: a.__setitem__(Ellipsis, 0)),
        ("imul", lambda: np.multiply(a, -1, out=a)),
        ("flat", lambda: a.flat.__setitem__(0, 1)),
        ("fill", lambda: a.fill(0)),
    ]
    if isinstance(x, g.Points):
        routes.append(("x-view", lambda: x.x.__setitem__(Ellipsis, 0)))
        routes.append(("coords", lambda: x.coords.__setitem__(Ellipsis, 0)))
    for name, f in routes:
        try:
            f()
        except (ValueError, TypeError):
            continue
        ok.append(name)
    return ok


def parse_keys(keys):
    mask = 0
    for k in keys:
        name, idx = k.rsplit(":", 1)
        idx = int(idx)
        if name not in MCODE or not (0 <= idx < 8):
            return None
        mask |= 1 << (MCODE[name] * 8 + idx)
    return mask


class Runner:
    """executes one history on one RayGeometry object and records, per produced entry,
    (code, identity class, key mask, finals mask)."""

    def __init__(self, geom, use_cache, deep=True):
        self.geom = geom
        self.uc = use_cache
        self.rg = geom.rg(use_cache=use_cache)
        self.entries = []     # (code, pid, keymask, finalmask)
        self.answers = []     # python objects (or None / exception), parallel to entries
        self.ids = {}         # id(obj) -> class number
        self.keep = []        # keep objects alive so that id() stays unique
        self.deep = deep
        self.bad = []         # (key, what, failing_input_found)

    def snap(self, code, obj=None):
        pid = -1
        if code == 1:
            self.keep.append(obj)
            pid = self.ids.setdefault(id(obj), len(self.ids))
        km = parse_keys(self.rg._cache.keys())
        fm = parse_keys(self.rg._final_keys)
        if km is None or fm is None:
            self.bad.append(("keys", f"unparsable cache key in {sorted(self.rg._cache)}", False))
            km, fm = km or 0, fm or 0
        if not self.uc and len(self.rg._cache) != 0:
            self.bad.append(("nocache", "a use_cache=False object retained a value", True))
        self.entries.append((code, pid, km, fm))
        self.answers.append(obj)

    def check_cache_inv(self):
        rgo = self.rg
        for k, v in rgo._cache.items():
            name, idx = k.rsplit(":", 1)
            want = self.geom.fresh[(name, int(idx))]
            got = (0, "None") if v is None else (1, ahash(v))
            if got != want:
                self.bad.append(("cache_inv:value", f"cached value of {k} differs from the fresh uncached answer", True))
            if v is not None and arr_of(v).flags.writeable:
                self.bad.append(("cache_inv:writeable", f"cached value of {k} is writeable", True))
        if self.uc and not set(rgo._final_keys) <= set(rgo._cache.keys()):
            self.bad.append(("cache_inv:finals", "final keys not a subset of the cache keys", False))

    def query(self, m, raw, final, style=0):
        f = getattr(self.rg, METHS[m])
        if final and style == 0:
            r = f(raw)
        elif style == 1:
            r = f(interface_idx=raw, is_final=bool(final))
        else:
            r = f(raw, is_final=bool(final))
        want = self.geom.fresh[(METHS[m], raw)]
        got = (0, "None") if r is None else (1, ahash(r))
        if got != want:
            self.bad.append(("transparent", f"{METHS[m]}({raw}) answers {got}, a fresh uncached object {want}", True))
        if r is not None:
            w = try_writes(r)
            if w:
                self.bad.append(("readonly", f"in-place write {w} on the answer of {METHS[m]}({raw}) succeeded", True))
            if ahash(r) != got[1]:
                self.bad.append(("readonly", f"the answer of {METHS[m]}({raw}) was altered by a write", True))
        return r

    def do_query(self, m, raw, final, style=0):
        """returns True if it raised"""
        try:
            r = self.query(m, raw, final, style)
        except Exception as e:  # noqa: BLE001
            want = self.geom.fresh[(METHS[m], raw)]
            if isinstance(e, arim.exceptions.ArimWarning):
                self.bad.append(("reassign", f"{METHS[m]}({raw}): {e}", False))
            elif want[0] != ecode(e) or want[1] != type(e).__name__:
                self.bad.append(("transparent", f"{METHS[m]}({raw}) raises {type(e).__name__}, a fresh uncached "
                                 f"object answers {want}", True))
            self.snap(ecode(e), None)
            return True
        self.snap(0 if r is None else 1, r)
        return False

    def step(self, op):
        # a cached object must never reassign a key (helpers.Cache.__setitem__ warns): make the
        # warning an exception, which then shows up as an outcome differing from the fresh object
        if self.uc:
            with warnings.catch_warnings():
                warnings.simplefilter("error", category=arim.exceptions.ArimWarning)
                self.step_(op)
        else:
            self.step_(op)

    def step_(self, op):
        kind = op[0]
        if kind == 0:
            _, m, raw, final, style = op
            self.do_query(m, raw, final, style)
        elif kind == 1:
            self.rg.clear_intermediate_results()
            self.snap(4)
        elif kind == 2:
            self.rg.clear_all_results()
            self.snap(4)
        elif kind == 5:
            raised = [False]
            try:
                with self.rg.precompute():
                    for (m, raw, final) in op[1]:
                        if self.do_query_raise(m, raw, final):
                            pass
            except _Abort:
                raised[0] = True
            if not raised[0]:
                self.snap(4)
        elif kind == 3:
            c = op[1]
            try:
                r = self.geom.call_client(c, self.rg)
            except Exception as e:  # noqa: BLE001
                got = (ecode(e), type(e).__name__)
                self.snap(ecode(e))
                if isinstance(e, arim.exceptions.ArimWarning):
                    self.bad.append(("reassign", f"{CLIENTS[c]}: {e}", False))
                    got = self.geom.fresh_client[c]
            else:
                got = (7, ahash(r))
                self.snap(7)
            if got != self.geom.fresh_client[c]:
                self.bad.append(("client", f"{CLIENTS[c]} answers {got} on this object, "
                                 f"{self.geom.fresh_client[c]} on a fresh uncached one", True))
        elif kind == 4:
            i = op[1]
            if i < len(self.entries) and self.entries[i][0] == 1:
                x = self.answers[i]
                before = ahash(x)
                w = try_writes(x)
                if w or ahash(x) != before:
                    self.bad.append(("mutate", f"in-place write {w} on the object answered at step {i} succeeded", True))
                    self.snap(4)
                else:
                    self.snap(5)
            else:
                self.snap(6)
        if self.deep:
            self.check_cache_inv()

    def do_query_raise(self, m, raw, final):
        """inside a precompute block: the exception must really propagate through the
        context manager (which then skips the clear)"""
        f = getattr(self.rg, METHS[m])
        try:
            r = self.query(m, raw, final, 2)
        except Exception as e:  # noqa: BLE001
            want = self.geom.fresh[(METHS[m], raw)]
            if isinstance(e, arim.exceptions.ArimWarning):
                self.bad.append(("reassign", f"{METHS[m]}({raw}): {e}", False))
            elif want[0] != ecode(e):
                self.bad.append(("transparent", f"{METHS[m]}({raw}) raises {type(e).__name__}, a fresh uncached "
                                 f"object answers {want}", True))
            self.snap(ecode(e), None)
            raise _Abort() from e
        self.snap(0 if r is None else 1, r)
        return False

    def run(self, ops):
        for op in ops:
            self.step(op)
        if not self.deep:
            self.check_cache_inv()
        return self


class _Abort(Exception):
    pass


def cop(op):
    k = op[0]
    t = lambda a, b, c: cpair(cZ(a), cZ(b), cZ(c))
    if k == 0:
        return cpair(cZ(0), clist([t(op[1], op[2], 1 if op[3] else 0)]))
    if k in (1, 2):
        return cpair(cZ(k), "[]")
    if k == 5:
        return cpair(cZ(5), clist([t(m, raw, 1 if f else 0) for (m, raw, f) in op[1]]))
    return cpair(cZ(k), clist([t(op[1], 0, 0)]))


def chunks(mask):
    out = []
    while mask:
        out.append(mask & 0xFFFFFF)
        mask >>= 24
    return clist([cZ(c) for c in out])


def pq(m, raw, f):
    assert 0 <= m < 32 and -16 <= raw < 16
    return m + 32 * (raw + 16) + 1024 * (1 if f else 0)


def pop(op):
    """packed op (see Model/Cache.v op_of_packed)"""
    k = op[0]
    if k == 0:
        return 0 + 8 * pq(op[1], op[2], op[3])
    if k in (1, 2):
        return k
    if k in (3, 4):
        return k + 8 * op[1]
    qs = op[1]
    assert len(qs) <= 3
    r = 0
    for (m, raw, f) in reversed(qs):
        r = r * 2048 + pq(m, raw, f)
    return 5 + 8 * (len(qs) + 4 * r)


def pentry(table, e, base):
    """packed expected entry; masks as XOR-deltas w.r.t. base = (key mask, finals mask)"""
    c, pid, km, fm = e
    assert -1 <= pid < 255
    return cZ(256 * table.setdefault((c, km ^ base[0], fm ^ base[1]), len(table)) + pid + 1)


def pentries_chain(table, entries):
    out, base = [], (0, 0)
    for e in entries:
        out.append(pentry(table, e, base))
        base = (e[2], e[3])
    return clist(out)


def ptable(table):
    tab = sorted(table, key=table.get)
    return clist([cpair(cZ(c), chunks(km), chunks(fm)) for (c, km, fm) in tab])


def centry(e):
    return cpair(cZ(e[0]), cZ(e[1]), chunks(e[2]), chunks(e[3]))


def describe(op):
    k = op[0]
    if k == 0:
        return f"{METHS[op[1]]}({op[2]}, is_final={bool(op[3])})"
    if k == 1:
        return "clear_intermediate_results()"
    if k == 2:
        return "clear_all_results()"
    if k == 5:
        return "with precompute(): " + "; ".join(f"{METHS[m]}({r}, is_final={bool(f)})" for (m, r, f) in op[1])
    if k == 3:
        return CLIENTS[op[1]] + "(rg)"
    return f"write into the answer of step {op[1]}"


IMPORTS = "From Coq Require Import ZArith List Bool.\nFrom Arim Require Import Model.Cache.\nOpen Scope Z_scope."
CASE_T = "case_t"

evaluations = 0
nontrivial = set()
samples = []
cases_full, cases_last = [], []   # (literal, info)
reported = set()
n_reports = {}
import time as _t
_T = [_t.time()]


def lap(name):
    chk.cov.setdefault('section_wall_s', {})[name] = round(_t.time() - _T[0], 1)
    _T[0] = _t.time()


def report(geom, uc, ops, key, what, found):
    n_reports[key] = n_reports.get(key, 0) + 1
    if key in reported:
        return
    reported.add(key)
    chk.violation("C14:" + key, what, {
        "numinterfaces": geom.N, "flags_inc_out": geom.flags, "use_cache": uc,
        "history": [describe(o) for o in ops], "ops_coded": [list(o) if o[0] != 5 else [5, list(o[1])] for o in ops],
        "predicate": "answer == answer of a fresh use_cache=False object; answers read-only; cached values == fresh answers",
    }, failing_input_found=found)


def flush_geom_violations():
    while pending_geom_violations:
        geom, key, what, ops = pending_geom_violations.pop(0)
        report(geom, False, ops, key, what, True)


import fractions as _fr
# (bool is left out on purpose: `True` indexes the tuple of interface indices as 1 but numpy arrays as a mask, so
#  even a FRESH object answers leg_points(True) with something else than leg_points(1); nobody's interface index)
ODD_SPELLINGS = [1.0, np.float64(2.0), -1.0, np.int64(1), np.int32(2), _fr.Fraction(1), 0.0, np.float32(1.0), np.int8(-1)]
_probe_count = 0


def run_history(geom, ops, uc=True, deep=True, last_only=False):
    flush_geom_violations()
    global evaluations
    r = Runner(geom, uc, deep=deep)
    before = len(r.entries)
    for i, op in enumerate(ops):
        if i == len(ops) - 1:
            before = len(r.entries)
        r.step(op)
    if not deep:
        r.check_cache_inv()
    # other spellings of an interface index (floats equal to an integer, numpy scalars, bool, Fraction) on the object
    # as the history left it: the outcome (value, or the kind of error) must be that of a fresh uncached object
    global _probe_count
    _probe_count += 1
    if _probe_count % 23 == 0:
        fresh_o = geom.rg(use_cache=False)
        for sp in ODD_SPELLINGS[(_probe_count // 23) % 3::3]:
            for m in (METHS[(_probe_count // 23 + j) % len(METHS)] for j in (0, 5, 11)):
                def outcome(o_):
                    try:
                        v_ = getattr(o_, m)(sp)
                    except Exception as e_:  # noqa: BLE001
                        return ("raises", type(e_).__name__)
                    return ("value", "None" if v_ is None else ahash(v_))
                got_, want_ = outcome(r.rg), outcome(fresh_o)
                evaluations += 1
                if got_ != want_:
                    r.bad.append(("transparent:index-spelling", f"{m}({sp!r}) after this history: {got_}; a fresh uncached object: {want_}", True))
        chk.count(index_spelling_probe=1)
    for (key, what, found) in r.bad:
        report(geom, uc, ops, key, what, found)
    evaluations += len(r.entries)
    exp = r.entries[before:] if last_only else r.entries
    (cases_last if last_only else cases_full).append((None, (geom, uc, ops, exp)))
    return r


# ---------------------------------------------------------------------------
# 0. corpus: the history that exhibited finding F5 (fixed in /repo) and relatives
# ---------------------------------------------------------------------------
def q(name, raw, final=True, style=0):
    return (0, MCODE[name], raw, final, style)


g3 = Geom(3, [(None, True), (False, None), (True, None)], np.random.default_rng(chk.seed + 1))
def decode_op(o):
    k = o[0]
    if k == "q":
        return q(o[1], int(o[2]), bool(o[3]), 2)
    if k == "ci":
        return (1,)
    if k == "ca":
        return (2,)
    if k == "pre":
        return (5, [(MCODE[n], int(r), bool(f)) for (n, r, f) in o[1]])
    if k == "client":
        return (3, int(o[1]))
    if k == "mutate":
        return (4, int(o[1]))
    raise ValueError(o)


corpus = []
_cdir = os.path.join("/verif", "corpus", "C14")
for _f in sorted(os.listdir(_cdir)) if os.path.isdir(_cdir) else []:
    if _f.endswith(".json"):
        _c = json.load(open(os.path.join(_cdir, _f)))
        assert _c["numinterfaces"] == 3 and [tuple(x) for x in _c["flags"]] == g3.flags
        corpus += [[decode_op(o) for o in hist] for hist in _c["histories"]]
for hist in corpus:
    run_history(g3, hist, True)
    run_history(g3, hist, False)
    chk.count(source="corpus")

# ---------------------------------------------------------------------------
# 1. exhaustive histories over a reduced alphabet
# ---------------------------------------------------------------------------
P = lambda *qs: (5, [(MCODE[n], r, f) for (n, r, f) in qs])
ALPHA = [
    q("leg_points", 0), q("leg_points", -3, False, 2), q("leg_points", 1, False, 1),
    q("orientations_of_legs_points", -2),
    q("inc_leg_size", 1), q("inc_leg_size", -2, False, 2), q("inc_leg_size", 0), q("inc_leg_size", -3),
    q("inc_leg_size", 2),
    q("inc_leg_cartesian", 1, False, 2), q("inc_leg_radius", 1), q("inc_leg_polar", 1), q("inc_leg_polar", -2, False, 2),
    q("inc_leg_polar", 2, False, 1), q("inc_leg_azimuth", -1),
    q("inc_angle", 1), q("inc_angle", 2, False, 2), q("signed_inc_angle", 1),
    q("conventional_inc_angle", 1), q("conventional_inc_angle", -2, False, 2), q("conventional_inc_angle", 2),
    q("conventional_inc_angle", -1), q("conventional_inc_angle", 0),
    q("out_leg_cartesian", 0, False, 2), q("out_leg_radius", -3), q("out_leg_polar", 0), q("out_leg_azimuth", 1, False, 2),
    q("out_angle", 0), q("out_angle", -3, False, 2), q("signed_out_angle", 1),
    q("conventional_out_angle", 0), q("conventional_out_angle", -3, False, 2), q("conventional_out_angle", 1),
    q("conventional_out_angle", 2), q("conventional_out_angle", -1, False, 2),
    q("leg_points", 3), q("inc_angle", -4), q("out_angle", 3, False, 2),
    (1,), (2,),
    P(("inc_angle", 1, True), ("signed_inc_angle", -2, True)),
    P(("out_angle", 0, True), ("conventional_out_angle", 1, True), ("leg_points", 2, True)),
    (3, 0), (3, 1), (3, 2), (4, 0), (4, 1),
]
ALPHA_SMALL = [ALPHA[i] for i in (1, 4, 5, 6, 7, 12, 15, 16, 18, 19, 21, 25, 28, 30, 32, 36, 38, 39, 40, 42, 45, 46)]
for o in ALPHA:
    nontrivial.add(("alpha", repr(o)))


blocks = []   # (geom, alpha, literal, [(ops, exp_entries)])


def exhaustive(geom, alpha, L, per_block=120):
    """all histories of length 1..L over alpha; the model side shares prefixes: one model
    case per prefix of length 0..L-1 with the expected last-step entries for every symbol"""
    global evaluations
    n = 0
    table, cases, hist_info = {}, [], []

    def flush():
        if not cases:
            return
        lit = cpair(ptable(table), clist(cases, sep=";\n"))
        blocks.append((geom, alpha, lit, list(hist_info)))
        table.clear(); cases.clear(); hist_info.clear()

    for l in range(0, L):
        for prefix in itertools.product(alpha, repeat=l):
            exps = []
            for a in alpha:
                ops = list(prefix) + [a]
                r = Runner(geom, True, deep=False)
                for op in prefix:
                    r.step(op)
                before = len(r.entries)
                r.step(a)
                r.check_cache_inv()
                for (key, what, found) in r.bad:
                    report(geom, True, ops, key, what, found)
                last = r.entries[before:]
                evaluations += len(last)
                base = (r.entries[before - 1][2], r.entries[before - 1][3]) if before else (0, 0)
                exps.append(clist([pentry(table, e, base) for e in last]))
                hist_info.append((ops, last))
                n += 1
            cases.append(cpair(clist([cZ(pop(o)) for o in prefix]), clist(exps)))
            if len(cases) >= per_block:
                flush()
    flush()
    return n


# VERIF_C14_DEV_SMALL: development only (faster mutation experiments); never set by the registered commands
DEV_SMALL = bool(__import__("os").environ.get("VERIF_C14_DEV_SMALL"))
n_exh = exhaustive(g3, ALPHA, 2 if DEV_SMALL else 3)
n_exh += exhaustive(g3, ALPHA_SMALL, 2 if DEV_SMALL else (3 if Q else 4))
chk.count(source=f"exhaustive:{n_exh}")
lap('exhaustive')

# ---------------------------------------------------------------------------
# 2. random histories on random geometries (2..5 interfaces, all flag values)
# ---------------------------------------------------------------------------
def random_geom():
    N = int(rng.integers(2, 6))
    fl = []
    for k in range(N):
        fl.append(tuple((None, True, False)[int(rng.integers(0, 3))] for _ in range(2)))
    return Geom(N, fl, rng)


def random_query(N, hot):
    u = rng.random()
    if u < 0.55 and hot:
        m, raw = hot[int(rng.integers(0, len(hot)))]
        if rng.random() < 0.5:   # the other spelling of the same interface
            raw = raw - N if raw >= 0 else raw + N
        if rng.random() < 0.25:
            m = int(rng.integers(0, 17))
    else:
        m = int(rng.integers(0, 17))
        raw = int(rng.integers(-N - 1, N + 1)) if rng.random() < 0.9 else int(rng.choice([-N - 2, -N - 1, N, N + 1]))
    return m, raw, bool(rng.random() < 0.6)


def random_history(N):
    L = int(rng.integers(1, 26))
    ops, hot, nent = [], [], 0
    for _ in range(L):
        u = rng.random()
        if u < 0.62:
            m, raw, f = random_query(N, hot)
            hot.append((m, raw))
            ops.append((0, m, raw, f, int(rng.integers(0, 3))))
            nent += 1
        elif u < 0.70:
            ops.append((1,)); nent += 1
        elif u < 0.74:
            ops.append((2,)); nent += 1
        elif u < 0.82:
            qs = []
            for _ in range(int(rng.integers(0, 4))):
                m, raw, f = random_query(N, hot)
                hot.append((m, raw))
                qs.append((m, raw, f))
            ops.append((5, qs)); nent += len(qs) + 1
        elif u < 0.90:
            ops.append((3, int(rng.integers(0, 4)))); nent += 1
        else:
            ops.append((4, int(rng.integers(0, max(1, nent))))); nent += 1
    return ops


n_rand = 2000 if Q else 50000
n_geoms = 40 if Q else 400
geoms = [random_geom() for _ in range(n_geoms)]
for k in range(n_rand):
    geom = geoms[k % n_geoms]
    ops = random_history(geom.N)
    # (some histories run while the library-wide precision settings are at non-default values: the answers of a cached object
    #  are still those of an uncached one, values and data types)
    import arim.settings as _st
    _keep_st = (_st.FLOAT, _st.COMPLEX)
    if k % 7 == 3:
        _st.FLOAT, _st.COMPLEX = np.float32, np.complex64
        chk.count(precision_settings="FLOAT=float32 COMPLEX=complex64")
    try:
        r = run_history(geom, ops, True, deep=(k % 4 == 0) or (k % 7 == 3))
        if k % 5 == 0:
            run_history(geom, ops, False, deep=False)
    finally:
        _st.FLOAT, _st.COMPLEX = _keep_st
    chk.count(source="random", numinterfaces=geom.N, history_len=min(25, len(ops)) // 5 * 5)
    for e in r.entries:
        chk.count(outcome={0: "None", 1: "array", 2: "IndexError", 3: "ValueError", 4: "unit", 5: "write-refused",
                           6: "no-handle", 7: "client-result", 8: "TypeError", 9: "other-error"}[e[0]])
    for o in ops:
        if o[0] == 0:
            nontrivial.add((geom.N, o[1], o[2], o[3]))
        else:
            nontrivial.add((geom.N,) + tuple(map(repr, o)))
    if k < 3:
        samples.append({"numinterfaces": geom.N, "flags": geom.flags, "history": [describe(o) for o in ops],
                        "entries(code,identity,keymask,finalmask)": [list(map(str, e)) for e in r.entries]})

# ---------------------------------------------------------------------------
# 3. the Coq state machine on the same histories (vm_compute in coqc)
# ---------------------------------------------------------------------------
lap('random')


def unmask(mask):
    return [f"{METHS[b // 8]}:{b % 8}" for b in range(17 * 8) if (mask >> b) & 1]


def decode_diag(diag):
    import re
    out = []
    for m in re.finditer(r"\(\s*(-?\d+),\s*(-?\d+),\s*(\d+),\s*(\d+),\s*(-?\d+)\)", diag.replace("\n", " ")):
        c, h, km, fm, w = (int(x) for x in m.groups())
        out.append([c, h, unmask(km), unmask(fm), w])
    return out or diag


def model_compare(cases, check, name, shard):
    fails = chk.coq_failing(name, IMPORTS, CASE_T, [c[0] for c in cases], check, shard=shard, jobs=8, timeout=3000)
    n_reports["model"] = n_reports.get("model", 0) + len(fails)
    for k in fails[:1]:
        if "model" in reported:
            break
        reported.add("model")
        geom, uc, ops, exp = cases[k][1]
        diag = ""
        try:
            diag = chk.coq_values(name + "_diag", IMPORTS, [
                f"let '(fl, uc, ops, exp) := ({cases[k][0]} : {CASE_T}) in "
                f"map entry_view (fst (run (ifs_of_Z fl) (negb (uc =? 0)) (map op_of_Z ops)))"])[-1500:]
        except Exception as e:  # noqa: BLE001
            diag = repr(e)
        chk.violation("C14:model", "outcome kinds / cache keys / final keys / object identities of a history differ "
                      "from the Coq state machine (Model.Cache.run)", {
                          "theorem_or_correspondence": "Model.Cache.run vs RayGeometry", "numinterfaces": geom.N,
                          "flags_inc_out": geom.flags, "use_cache": uc, "history": [describe(o) for o in ops],
                          "impl_entries(code,identity,keys,finals)": [[e[0], e[1], unmask(e[2]), unmask(e[3])] for e in exp],
                          "model_entries(code,handle,keys,finals,writeable)": decode_diag(diag)},
                      failing_input_found=False)
    return len(fails)


def full_compare(per_block=250):
    """random histories: blocks with a table of distinct expected entries; a failing block is
    re-checked history by history (check_case) to pinpoint"""
    blits, binfo = [], []
    for i in range(0, len(cases_full), per_block):
        part = cases_full[i:i + per_block]
        table = {}
        cs = []
        for (_, (geom, uc, ops, exp)) in part:
            cs.append(cpair(geom.pflags(), cZ(1 if uc else 0), clist([cZ(pop(o)) for o in ops]),
                            pentries_chain(table, exp)))
        blits.append(cpair(ptable(table), clist(cs, sep=";\n")))
        binfo.append(part)
    fails = chk.coq_failing("full_blocks", IMPORTS, "full_block_p", blits, "check_full_block_p", shard=1, jobs=(8 if Q else 12),
                            timeout=3000)
    n_reports["model_blocks"] = n_reports.get("model_blocks", 0) + len(fails)
    for bi in fails[:1]:
        part = [(centry_case(info), info) for (_, info) in binfo[bi]]
        if model_compare(part, "check_case", "full_pin", 200) == 0:
            chk.violation("C14:model-block", "a block of random histories differs from the Coq state machine "
                          "(not reproduced per history)", {"theorem_or_correspondence": "Model.Cache.check_full_block"},
                          failing_input_found=False)


def centry_case(info):
    geom, uc, ops, exp = info
    return cpair(geom.cflags(), cZ(1 if uc else 0), clist([cop(o) for o in ops]), clist([centry(e) for e in exp]))


full_compare()
lap('coq_full')
def block_compare():
    by_alpha = {}
    for b in blocks:
        by_alpha.setdefault(id(b[1]), []).append(b)
    for k, (aid, bl) in enumerate(by_alpha.items()):
        geom, alpha = bl[0][0], bl[0][1]
        hdr = (IMPORTS + "\nImport ListNotations.\nDefinition alpha : list Z := "
               + clist([cZ(pop(o)) for o in alpha]) + ".\nDefinition fl : list Z := " + geom.pflags() + ".")
        fails = chk.coq_failing(f"blocks_{k}", hdr, "block_p", [b[2] for b in bl], "check_block_p fl 1 alpha",
                                shard=1, jobs=(8 if Q else 12), timeout=3000)
        n_reports["model_blocks"] = n_reports.get("model_blocks", 0) + len(fails)
        for bi in fails[:1]:
            # pinpoint the histories of the failing block with the per-history check
            info = bl[bi][3]
            cs = [(cpair(geom.cflags(), cZ(1), clist([cop(o) for o in ops]), clist([centry(e) for e in exp])),
                   (geom, True, ops, exp)) for (ops, exp) in info]
            if model_compare(cs, "check_case_last", f"blocks_{k}_pin", 500) == 0:
                chk.violation("C14:model-block", "a block of exhaustive histories differs from the Coq state machine "
                              "(not reproduced per history)", {"theorem_or_correspondence": "Model.Cache.check_block"},
                              failing_input_found=False)


block_compare()
lap('coq_blocks')

# the compiled forms of the generated case files are large (GBs in the thorough tier): drop them
for _f in os.listdir(chk.work):
    if _f.endswith((".vo", ".vok", ".vos", ".glob", ".aux")):
        try:
            os.remove(os.path.join(chk.work, _f))
        except OSError:
            pass

# ---- the same guarantees in a child interpreter started with `python -O` (assert statements compiled away): answers read-only,
#      a caller's in-place operation refused and without effect on later answers
import child_modes as _cm  # noqa: E402
_src = os.environ.get("VERIF_ARIM_SRC") or "/repo/src"
_res = _cm.run_child(_cm.C14_OPTIMIZED, _src, interpreter_args=("-O",), env_extra={"NUMBA_CACHE_DIR": os.environ.get("NUMBA_CACHE_DIR", "")} if os.environ.get("NUMBA_CACHE_DIR") else None)
evaluations += 1
chk.count(child_interpreter="python -O: " + _res.split(":")[0])
if not _res.startswith("OK"):
    chk.violation("python-O", "under `python -O` the answers of a cached RayGeometry are not protected: " + _res,
                  {"program": "harness/child_modes.py C14_OPTIMIZED", "interpreter": "python -O", "outcome": _res}, failing_input_found=True)

# ---- the glue model of the public functions (Model files added later, see manifest text) tied to the library on every run:
#      inputs generated here, the library run on them, the model evaluated on the same inputs by vm_compute inside coqc
import ties.tie_C14 as _tie_glue  # noqa: E402
_tie_n = _tie_glue.run(chk, arim, rng, Q)
chk.cov["glue_model_tie_comparisons"] = int(_tie_n or 0)

chk.finish(
    evaluations=evaluations,
    distinct_nontrivial=len(nontrivial),
    rule=("evaluations = entries (answers) produced by executed operations; distinct = distinct (numinterfaces, method, "
          "raw index, is_final) requests and distinct other operations met in random histories + alphabet symbols"),
    samples=samples,
    extra={"exhaustive_histories": n_exh, "random_histories": n_rand, "alphabet": len(ALPHA),
           "alphabet_small": len(ALPHA_SMALL), "exhaustive": False,
           "histories_evaluated_in_coq": len(cases_full) + n_exh,
           "reports_per_key": n_reports},
    assumptions=["array contents are abstracted to symbolic terms in the model; equality of contents is checked on the "
                 "implementation by hashing against a fresh uncached object"],
)
