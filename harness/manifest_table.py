"""Per-property texts for MANIFEST.json (bin/mkmanifest)."""
PROOF = "machine-checked Coq proof (induction/algebra, unbounded) about an executable Gallina model + differential correspondence model vs /repo"
TABLE = {
    "C13": {
        "text": "Coq theorems (axiom-free): chunk_array slices enumerate 0..len-1 exactly once for every length and block size; "
                "tile products partition the output; any permutation of tasks with disjoint write sets yields the same array, "
                "equal to the unchunked kernel. Tie: the task lists really built by find_minimum_times/distance_pairwise/chunk_array "
                "are compared with the model evaluated by vm_compute; the theorem's premises (disjoint covering write regions, "
                "inputs untouched) are checked on the real views and the tasks are re-executed in all/many orders, with real pools "
                "and 1..16 numba threads.",
        "note": "Trusted: Coq kernel; harness (recording executor substituted from outside). Partial: atomic-task schedule space is proved; "
                "numba's threading layer, OS scheduling and races inside a task are only sampled.",
        "technique": "Coq proof by induction over task lists / Permutation + vm_compute correspondence on recorded task lists",
    },
}
TABLE["C06"] = {
    "text": "Coq theorems over the reals: for any number of legs the model of beamspread_2d_for_path equals the amplitude of the "
            "infinitesimal ray tube (list induction with a telescoping invariant), the code's gamma is the Snell tube factor beta, "
            "d = r in one medium, scaling by s gives 1/sqrt(s). Tie: the extracted model (OCaml float instance) is run on leg lengths, "
            "velocities and angles read from real RayGeometry objects and compared ray by ray with arim.model.beamspread_2d_for_path "
            "(and the reverse variant); on disagreement the extracted tube spec decides whether the input is a failing input.",
    "note": "Trusted: Coq kernel + real-number axioms of the standard library; ExtrOcamlBasic extraction, ocaml/common/numf.ml and driver; "
            "theorems are exact-arithmetic, binary64 rounding is outside them (tolerance 1e-11). The derivative argument that beta is the "
            "ray-tube law (curvature_transfer) is stated in DESIGN and not yet mechanised.",
    "technique": "Coq proof over R (list induction, field/lra) + extracted-OCaml differential correspondence",
}
NOT_APPLICABLE = {}
