"""Per-property texts for MANIFEST.json (bin/mkmanifest)."""
PROOF = "machine-checked Coq proof (induction/algebra, unbounded) about an executable Gallina model + differential correspondence model vs /repo"
TABLE = {
    "C13": {
        "text": "Coq theorems (axiom-free): chunk_array slices enumerate 0..len-1 exactly once for every length and block size; "
                "tile products partition the output; any permutation of tasks with disjoint write sets yields the same array, "
                "equal to the unchunked kernel. Tie: the task lists really built by find_minimum_times/distance_pairwise/chunk_array "
                "are compared with the model evaluated by vm_compute; the theorem's premises (disjoint covering write regions, "
                "inputs untouched) are checked on the real views and the tasks are re-executed in all/many orders, with real pools "
                "and 1..16 numba threads.",
        "note": "Trusted: Coq kernel; harness (recording executor substituted from outside). Partial: atomic-task schedule space is proved; "
                "numba's threading layer, OS scheduling and races inside a task are only sampled.",
        "technique": "Coq proof by induction over task lists / Permutation + vm_compute correspondence on recorded task lists",
    },
}
NOT_APPLICABLE = {}
