"""Per-property texts for MANIFEST.json (bin/mkmanifest)."""
PROOF = "machine-checked Coq proof (induction/algebra, unbounded) about an executable Gallina model + differential correspondence model vs /repo"
TABLE = {
    "C13": {
        "text": "Coq theorems (axiom-free): chunk_array slices enumerate 0..len-1 exactly once for every length and block size; "
                "tile products partition the output; any permutation of tasks with disjoint write sets yields the same array, "
                "equal to the unchunked kernel. Tie: the task lists really built by find_minimum_times/distance_pairwise/chunk_array "
                "are compared with the model evaluated by vm_compute; the theorem's premises (disjoint covering write regions, "
                "inputs untouched) are checked on the real views and the tasks are re-executed in all/many orders, with real pools "
                "and 1..16 numba threads.",
        "note": "Trusted: Coq kernel; harness (recording executor substituted from outside). Partial: atomic-task schedule space is proved; "
                "numba's threading layer, OS scheduling and races inside a task are only sampled.",
        "technique": "Coq proof by induction over task lists / Permutation + vm_compute correspondence on recorded task lists",
    },
}
TABLE["C06"] = {
    "text": "Coq theorems over the reals: for any number of legs the model of beamspread_2d_for_path equals the amplitude of the "
            "infinitesimal ray tube (list induction with a telescoping invariant), the code's gamma is the Snell tube factor beta, "
            "d = r in one medium, scaling by s gives 1/sqrt(s). Tie: the extracted model (OCaml float instance) is run on leg lengths, "
            "velocities and angles read from real RayGeometry objects and compared ray by ray with arim.model.beamspread_2d_for_path "
            "(and the reverse variant); on disagreement the extracted tube spec decides whether the input is a failing input.",
    "note": "Trusted: Coq kernel + real-number axioms of the standard library; ExtrOcamlBasic extraction, ocaml/common/numf.ml and driver; "
            "theorems are exact-arithmetic, binary64 rounding is outside them (tolerance 1e-11). The derivative argument that beta is the "
            "ray-tube law (curvature_transfer) is stated in DESIGN and not yet mechanised.",
    "technique": "Coq proof over R (list induction, field/lra) + extracted-OCaml differential correspondence",
}
TABLE["C11"] = {
    "text": "Coq theorems: toneburst length odd, symmetric, peak exactly 1 at the centre / at time zero (make_toneburst2), |.|<=1, "
            "zero outside and at both ends of the window, wrapped peak at sample 0; Hilbert weights of rfft_to_hilbert equal the "
            "analytic-signal weights for both parities; shift theorem for the finite Fourier sum (whole-sample delay = circular "
            "shift; zero delay = identity); the delay split q = nearest sample, |rem| <= dt/2, q*dt+rem = d; a delay on sample k "
            "adds response sample i at output sample k - t0 + i and nothing else. Tie: extracted model vs make_toneburst/"
            "make_toneburst2 sample by sample (and accepted/rejected arguments), model weights vs weights recovered from "
            "rfft_to_hilbert, FFT oracles vs the finite Fourier sum, delay split on exact rationals (NumQ in coqc) vs the slice really "
            "written; spec predicates on the implementation for every fitting delay k*dt, k*dt +- ulp and random fractional delays.",
    "note": "Partial: for fractional remainders the half-sample peak criterion is measured, not proved (peak_within_half_sample_partial). "
            "numpy.fft/scipy.fftpack are oracles for the Fourier sums. Trusted: Coq kernel + Reals axioms, extraction, numf.ml, driver.",
    "technique": "Coq proof over R/C (trigonometric identities, Flocq rounding lemmas, finite sums) + extracted-OCaml and vm_compute correspondence",
}
TABLE["C10"] = {
    "text": "Coq theorems (half period P a parameter, instantiated with pi): matrix entry [j,i] = f(-P+2Pi/n, -P+2Pj/n); the "
            "interpolation kernel returns the entries at the nodes, the bilinear form of the four neighbours (indices modulo n) in "
            "between, is 2P-periodic in both angles and agrees at +-P; index in [0,n) and fraction in [0,1) for every real angle; "
            "rotation by k grid steps commutes with shifting both indices; the FFT route of rotate_matrix is that circular shift "
            "(2-D finite Fourier sums, signed fftfreq indices); linear frequency interpolation reproduces the samples. Tie: "
            "extracted model vs interpolate_matrix on real/complex matrices n=2..33 (nodes, node+-ulp, seam, +-3 periods), model "
            "angles vs make_angles, shifted-matrix model vs rotate_matrix, lerp vs ScatFromData; spec predicates evaluated on the "
            "implementation (nodes, periodicity, seam, midpoint rule, rotate = roll, layout of real scatterer matrices, data "
            "reproduced at sampled frequencies, MAT round trip for every key subset and frequencies shape).",
    "note": "Oracles: numpy.fft (finite Fourier sums), scipy interp1d, MAT I/O. Python float // and % are modelled by their exact meaning "
            "(the interpolant is continuous, so node-boundary rounding is inside the 1e-11 tolerance). Trusted: Coq kernel + Reals axioms, "
            "extraction, numf.ml, driver.",
    "technique": "Coq proof over R/C (Flocq floor lemmas, modular arithmetic, finite Fourier sums) + extracted-OCaml differential correspondence",
}
TABLE["C07"] = {
    "text": "Coq theorems: factor by factor the reverse transmission/reflection coefficient IS the forward coefficient of the "
            "reversed interface at the Snell image of the incidence angle (identical calls), hence reverse_transrefl(p) = "
            "transrefl(reverse p) in both units for any interface kinds/modes and complex coefficients (any commutative, "
            "associative multiplication; instantiated on complex pairs over R); reverse beamspread = beamspread of the reversed "
            "path for any number of legs under Snell (rev_gamma = gamma of the reversed interface); attenuation invariant under "
            "reversal. Tie: extracted model fed with ANALYTICALLY computed angles/legs of Snell-exact rays through tilted walls "
            "(real arim Path/Interface/Material objects, 2..4 legs, every L/T word, beyond the L critical angle) vs "
            "transmission_reflection_for_path / reverse_… / beamspread / reverse beamspread / material_attenuation_for_path; spec on "
            "the implementation: reverse_*(p) == direct(p.reverse()) ray for ray in both units.",
    "note": "The Snell hypothesis is discharged on analytically traced rays (arim's discrete tracing meets it only approximately). Absolute floor "
            "2e-7 on O(1) coefficients: arim's polar angle acos(z/r) is ill-conditioned at near-normal incidence. Trusted: Coq kernel + Reals "
            "axioms, extraction, numf.ml, driver.",
    "technique": "Coq proof (list induction over interfaces, commutative-monoid product reversal, field identities over R) + extracted-OCaml differential correspondence",
}
NOT_APPLICABLE = {}
TABLE["C15"] = {
    "text": "Coq theorems (axiom-free, list induction) about an executable model of arim's frame bookkeeping: fmc / hmc list every "
            "ordered / unordered element pair exactly once (for all n, with their storage order); infer_capture_method is invariant "
            "under permutation, recognises every permutation of FMC and of HMC in either orientation (n=1 reported as hmc) and nothing "
            "else (soundness: hmc/fmc answers imply a permutation); default weights are 1 iff the mirrored pair is present, else 2, and "
            "sum to n^2 on an HMC; expand_frame_assuming_reciprocity never raises and yields exactly the recorded pairs and their "
            "mirrors, duplicate-free, in increasing tuple order, each row carrying the recorded row of its pair and only otherwise the "
            "mirrored one, is complete and idempotent; subframe_from_probe_elements keeps exactly the rows with both elements retained, "
            "in order, with E[new]=old so that sub-probe attributes (locations) of the new indices equal those of the old ones (with and "
            "without sub-probe, also for repeated elements), never raising on valid input; for every finite chain of subframe / "
            "subframe_from_probe_elements / expand / apply_filter the invariant 'row label = physical (tx, rx) elements it was recorded "
            "with' (up to the mirror introduced by expansion; exact without expansion) is preserved and no row is invented. "
            "Tie: real arim.Frame/Probe objects whose samples and per-element attributes encode physical labels; chains of 1-6 "
            "operations with slices of every step sign, boolean masks, permuted / negative / repeated / out-of-range integer lists; "
            "after every step tx, rx, payload and probe labels are compared exactly with the model (extracted OCaml on every chain; the same "
            "term by vm_compute in coqc on every chain in the quick tier and on 3000 chains in the thorough tier), single-operation "
            "chains exhaustive on small sizes (all duplicate-free element lists, masks, slices), and "
            "the spec predicates (brute-force definitions) are evaluated on the implementation's output; fmc, hmc, infer, weights, the "
            "duplicate check, get_timetrace, is_complete separately.",
    "note": "Trusted: Coq kernel; ExtrOcamlBasic extraction + ocaml/C15/driver.ml (cross-checked against vm_compute on every run); "
            "harness normalisation of slices/masks to arange(n)[idx]. Modelled, not verified: numpy fancy indexing, "
            "np.isin, CPython set/dict semantics (exercised by the tie). apply_filter is covered for row-wise filters only (premise "
            "filter_ok; the harness uses scalar multiples). Scalar (non-list) indices and tuple indices are outside the property.",
    "technique": "Coq proof by list induction (NoDup / Permutation / StronglySorted) + vm_compute / extracted-OCaml correspondence on chains of operations",
}
TABLE["C18"] = {
    "text": "Coq theorems (axiom-free) about an executable model of arim's view/path naming: for every duplicate-free list of path "
            "names make_viewnames lists every ordered pair exactly once (n^2, a permutation of the product) in strictly ascending "
            "documented order (the Python key tuple compared as tuples is proved equal to the documented criteria, a strict total "
            "order, with Python's stable sort modelled as a stable insertion sort); reciprocal_viewname is an involution; "
            "filter_unique_views on any duplicate-free list keeps the order, keeps v iff v is the first member of {v, recip v}, hence "
            "exactly one member of every class for reversal-closed name sets, and never drops a view whose reciprocal is absent; "
            "for all 10 examination objects (immersion with/without back wall; contact with/without front wall, back wall, "
            "under-material) and every max_number_of_reflection in Z, make_interfaces+make_paths equal the independently written "
            "documented wiring (names in order, block modes = the name, interface sequence, kinds, transmission/reflection, "
            "reflection_against, normal-side flags derived from the up/down direction of the legs, materials) or raise in the "
            "documented cases (finite part by vm_compute, bound in the statement); make_views_from_paths on any dictionary gives view "
            "X-Y = (paths[X], paths[reversed Y]) and succeeds iff the keys are reversal-closed; in every configuration view X-Y has "
            "tx block legs X, rx block legs reversed Y and scat_key last(X)+first(Y); Path.reverse, Interface.reverse, Rays.reverse "
            "are involutions (modes, materials, kinds, flags, rays; reversed indices = same rays backwards) and are defined on every "
            "configuration path. Tie (all exact): the real make_viewnames / filter_unique_views / reciprocal_viewname on random "
            "reversal-closed and arbitrary name sets (words up to 5 letters, order_func default/None, unique on/off), the real "
            "make_interfaces, make_paths, make_views of block_in_immersion and block_in_contact for every configuration and "
            "max_number_of_reflection -2..7, make_views_from_paths on random sub-dictionaries, Interface(...) and Interface.reverse on "
            "every attribute combination, Path.reverse with random Rays on configuration and random paths: names, order, modes, "
            "materials and points by identity, kinds, flags, normal sides, scat_key, error class and rays arrays are compared with the "
            "model evaluated by vm_compute in coqc; the spec predicates (n^2 pairs once, sortedness by the written-out criteria, one "
            "and the first of each class, tx/rx wiring and object identity, documented interface sequences, double reversal) are "
            "evaluated directly on the implementation's outputs.",
    "note": "Trusted: Coq kernel; harness encoding of arim objects as integers (identity of points/materials, enum members). "
            "Points, orientations and materials are opaque (identity only). Path names are words over {L,T}; other strings are outside "
            "the model. Which exception type reports a missing wall/name (KeyError vs ValueError) is not part of the property and is "
            "compared as one class. The count n(n+1)/2 of unique views is checked at run time and by Examples (21, 105), not stated "
            "as a general theorem. Python object plumbing (OrderedDict, namedtuple, numpy transposition) is exercised by the tie only.",
    "technique": "Coq proof by list induction (Permutation / NoDup / StronglySorted, lexicographic comparison combinators) + finite "
                 "case analysis by vm_compute + vm_compute correspondence on every configuration and random name sets",
}
TABLE["C20"] = {
    "text": "Coq theorems (axiom-free) about an association-list model with Python-dict behaviour of recursive_dict_merge / "
            "load_conf / _resolve_filenames / the BRAIN loader's index arithmetic: merge_lookup (a key of the later mapping wins — "
            "entirely when either side is a leaf, by recursive merge when both are mappings — and untouched keys survive), the dict "
            "invariant is preserved, merging is idempotent (syntactically), String.leb is a total order and sorting any permutation "
            "of the directory listing gives the same list, hence load_conf (base, fragments in alphabetical order of the file names, "
            "extra keys, resolved file names) is the same for EVERY permutation of the listing and equals the left fold of the merge "
            "over the sorted names; a non-mapping fragment fails the load wherever it is listed; the extra keys and "
            "_resolve_filenames keep every other key/value; tx/rx = stored-1 position by position; the loaded array has one row per "
            "timetrace for both reader layouts (scipy: (S,N) Fortran order; h5py: (N,S) C order); Time.from_vect on t0+k*step returns "
            "(t0, step, n) over exact rationals. merge_assoc is REFUTED (a leaf between two mappings; witness replayed on the code), "
            "shown irrelevant (load_conf is a fixed left fold) and proved to hold as maps whenever the third operand puts no mapping "
            "over a leaf of the second; merging respects equality up to key order (dict order of the files is irrelevant). "
            "Tie (exact): Config.merge on random nested dicts incl. leaf-vs-mapping conflicts; real .arim directories with 0-6 "
            "fragments with adversarial names (prefixes, case, digits, punctuation), non-mapping/empty files, result_dir and "
            "filepath_keys variants, loaded under every permutation of the listing (k<=4; random otherwise) by substituting "
            "pathlib.Path.glob: results must be identical for all listings, equal to an independently written spec and to the model "
            "evaluated by vm_compute (compared as maps by cfg_eqb, proved sound); grid/material/attenuation/wall/examination-object/"
            "probe builders compared field by field with dyadic configured values (and the arguments reaching Grid, the "
            "dispatch of examination_object_from_conf/probe_from_conf, against the model); exp_data MAT files written with "
            "scipy.io.savemat (and the h5py reader emulated in memory) for FMC/HMC/random capture orders, 5 index dtypes, square and "
            "non-square data: samples, time axis, element positions/dimensions, frequency, velocity unchanged, tx/rx = stored-1, "
            "rows = timetraces; Time.from_vect against an exact-rational model; the chain load_conf -> frame_from_conf on real "
            "directories (resolved datafile, instrument_delay, probe/examination object from conf or file).",
    "note": "Trusted: Coq kernel; harness (Path.glob and the HDF5 reader substituted from outside, leaf values interned to integers). "
            "Oracles (Section variables): YAML parsing, the set of listed names, pathlib joining/resolution, MAT reading. 'Alphabetical' "
            "= byte-lexicographic order of the file names including '.yaml' (ASCII names only in the tie). The model is a tree: "
            "aliasing of sub-mappings through YAML anchors is outside it (stated assumption). The constructors Grid/Material/Probe "
            "themselves are only exercised by the tie; the builder 'theorems' are the trivial key-passing views (defaults ymin/ymax). "
            "Time.from_vect: theorem for exactly linear vectors only; the 1 % tolerance branch is covered by the correspondence. "
            "One-element files and one-sample files are rejected by the loader (InvalidExpData) and excluded from the theorem "
            "(premises 2 <= N, 2 <= S for the h5py layout).",
    "technique": "Coq proof by nested induction on configurations (custom induction principle), fold invariants, Permutation / "
                 "StronglySorted uniqueness of sorted lists + vm_compute correspondence on real directories with permuted listings",
}
TABLE["C04"] = {
    "text": "Coq theorems about a model of snell_angles / _fluid_solid_n / fluid_solid / solid_l_fluid / solid_t_fluid / "
            "transmission_at_interface / reflection_at_interface written once over a numeric record (reals; complex numbers as pairs "
            "of reals with derived sin, cos, numpy's arcsin branch). Over the reals: Snell's law for the real arcsin up to the critical "
            "angle and, for the complex dtype, on every branch of numpy's arcsin (below and beyond critical: pi/2 + i acosh s); the "
            "Snell round trip; energy conservation R^2 + sum T_m^2 (z_inc cos a_m)/(z_m cos a_inc) = 1 for the three functions below "
            "every critical angle, both on (sin, cos) constrained by Snell and cos^2+sin^2=1 (field_simplify_eq + nsatz) and for the "
            "functions as called on an incidence angle in [0, pi/2) with Snell angles computed on the fly; for complex angles: total "
            "reflection |R|=1 beyond both critical angles, |R|^2+|T_T|^2 K=1 between them, |R_TT|^2+|T|^2 K=1 for T incidence "
            "beyond the L critical angle and |R_TT|=1 beyond the L and fluid critical angles (on (sin, i*b) inputs and for the "
            "functions as called) -- every regime of a fluid slower than the L wave. In ANY field (proved in a Section "
            "over an abstract field structure, instantiated for R and for pairs of reals, so for complex angles): the three Stokes "
            "relations T_lf = T_fl z_f cos a_l/(z_l cos a_f), T_tf = -T_ft z_f cos a_t/(z_t cos a_f), R_tl = -R_lt z_l cos a_t/(z_t cos a_l) "
            "(the relations of tests/test_model.py incl. its magic_coefficient=-1; also stated for the functions called with three complex "
            "angles) and the normal-incidence impedance formulas (real and complex dtype). The "
            "angle-called functions are proved equal to the (sin, cos) formulas (double-angle identities, real and complex). The "
            "helpers' dispatch tables (selected coefficient, z_inc/z_out or c_inc/c_out for displacement, raising combinations) are "
            "proved for every numeric instance. Tie: the extracted model (OCaml floats + libm) is compared with arim at 1e-11 on random "
            "and fixed materials (c_T < c_L/sqrt 2, fluid velocity from 250 m/s to 1.3 c_L) and angle grids (real and complex dtype, "
            "0-89.9 deg, every critical angle +- {0,1,2 ulp,1e-9,1e-6,1e-3}): numpy arcsin on arim's sine, snell_angles, the three "
            "functions with the angles given / on (sin,cos) / with Snell on the fly, both helpers for all 32 (kind, modes, unit) "
            "combinations x force_complex incl. the raising ones; and the identities themselves (Snell, energy with Re(cos) flux "
            "weights in every regime, Stokes, normal incidence, helper = selected coefficient x documented ratio) are evaluated on "
            "arim's outputs (residual <= 1e-10) and decide failing_input_found.",
    "note": "Trusted: Coq kernel + real-number axioms of the standard library; ExtrOcamlBasic extraction, ocaml/common/numf.ml and the "
            "driver; numpy's complex sin/cos/arcsin/division are MODELLED by textbook formulas over real libm functions (agreement "
            "checked to 1e-11, not proved); theorems are exact-arithmetic, binary64 rounding is outside them. End-to-end routes that "
            "recompute Snell angles exclude cases with |s-1| < 1e-9 (class D; those are compared with the angles given) and allow a "
            "4-ulp error on the Snell sine times its conditioning; tolerances scale with the condition number of N. Partial: "
            "post-critical energy balance is proved for every regime with v_f < v_l; the regimes that need a fluid faster than the "
            "L wave are covered by the residual predicate and correspondence only. "
            "The conjugate arcsin branch would satisfy every identity: it is caught by the correspondence only (no failing input).",
    "technique": "Coq proof over R (field_simplify_eq/nsatz/field), over an abstract field (Add Field in a Section) and over complex "
                 "pairs + extracted-OCaml differential correspondence + residual predicates on the implementation",
}
TABLE["C01"] = {
    "text": "Coq theorems about a faithful executable model of _find_minimum_times (triple loop, strict <, accumulator (inf,-1) as "
            "option) and of FermatSolver (_solve recursion over split_queue, expand_rays, make_indices, Rays.reverse, FermatPath.reverse, "
            "cached_result / cached_distance as association lists incl. the `rkey` slip), over an ABSTRACT cost type (leb a total "
            "preorder, ltb = not >=, add monotone in its first argument — laws that IEEE non-NaN doubles satisfy, so nothing is 'up to "
            "rounding'); all discrete theorems are axiom-free: minplus_spec/minplus_first (result <= every candidate, attained at the "
            "returned index, which is the least minimiser), minplus_empty, minplus_tile (kernel on a row/column slice = block of the "
            "global result, for C13); solve_defined/solve_shapes; solve_optimal (times[i][j] <= the left-nested cost of EVERY valid "
            "index tuple, any number of legs, induction on legs, Bellman step by monotonicity only); solve_realised (the reported "
            "indices start at i, end at j, are in range and cost exactly times[i][j]); fastest_unique (realised+optimal pin the time "
            "whatever the tie-breaking); solve_optimal_any_choice / solve_realised_any_choice (the same two theorems for the solver run "
            "with ANY argmin choice returning a minimiser; model_is_choice: the model is the instance 'first strict minimiser'); brute_spec / solve_is_brute (the executable brute-force spec is the minimum over all valid tuples and the solver's times "
            "equal it); solver_grouping (one solver on ANY list of paths = each path alone, same error behaviour; "
            "invariant: every cache entry equals the stand-alone solution of its key); cost_reverse/solve_reverse/"
            "solve_reverse_transposed/rays_reverse_valid (associative-commutative add + symmetric distance: reversed path gives "
            "transposed times, Rays.reverse realises them), rays_reverse_involutive, path_reverse_involutive; discrete_between "
            "(L <= times[i][j] <= continuous time of any sample tuple, for every lower bound L of the continuous problem); "
            "fermat_stationary_snell (one flat interface: a local minimiser of the continuous travel time satisfies "
            "sin(th1)/c1 = sin(th2)/c2; Reals axioms); cost_structure_R / concrete_leg_model (the hypotheses hold for R and for the "
            "executable Num instance). Tie: real FermatSolver(...).solve() and ray_tracing_for_paths (C/F order, float64/float32) on "
            "generated clouds (1-4 legs, set sizes 1-40, 2D/3D, coincident points, ties, groups of 1-6 paths with shared prefixes, "
            "duplicates, clones, reversed duplicates, empty end sets, empty interior set -> ZeroDivisionError) against the model run by "
            "vm_compute on binary64 primitive floats: times bit-exact on dyadic-exact clouds (exactness of every leg is measured), "
            "1e-12 on random clouds (1e-5 float32); indices are NOT compared with the model's argmin but must satisfy solve_realised "
            "(Coq function cost) on the implementation's own times, and the verified Coq function brute must equal them when the "
            "search space has <= 400 tuples. Spec predicates evaluated in numpy on every answer: brute force "
            "over all tuples (prod sizes <= 1e5) == times, realised, index ranges/endpoints, reversed == transposed, "
            "Rays.reverse valid and involutive, grouped == alone bitwise, order/set independence, float32 run.",
    "note": "Trusted: Coq kernel (+ Reals axioms for the two real-number theorems only); harness generators and numpy spec predicates. "
            "Instance gap: float addition is monotone but not associative, so reversal is exact only in exact arithmetic (checked within "
            "1e-12 on random clouds, bit-exact on dyadic clouds). Not covered by theorems: memory layout, dtype casts, the thread pool "
            "(C13), gone_through_extreme_points, NaN/inf inputs (FermatPath asserts finite velocities). Snell is mechanised for one flat "
            "interface in 2-D only; for several interfaces the continuous problem enters discrete_between through an arbitrary lower "
            "bound L. Any other tie-breaking than strict `<` is covered by the *_any_choice theorems and fastest_unique together "
            "with the harness relation (a `<` -> `<=` rewrite of the kernel does not alarm).",
    "technique": "Coq proof by induction on the path (snoc structure) over an abstract ordered cost type + table calculus; state-machine "
                 "refinement for the caches; Coquelicot/Reals for Snell; vm_compute (PrimFloat) correspondence + numpy brute-force spec",
}
TABLE["C14"] = {
    "text": "Coq theorems (axiom-free, for any number of interfaces and EVERY history of Query m idx is_final | clear_intermediate_results "
            "| clear_all_results | precompute block | model client (beamspread, reverse beamspread, transmission-reflection, reverse) | "
            "in-place write into a previously answered object): the state machine Model/Cache.v of RayGeometry (cache keyed by (method, "
            "resolved index), finals, heap of arrays with writeable flags and object identity, the 17 decorated methods with their call "
            "graph, raw-vs-resolved index uses and None/ValueError/IndexError branches, Cache and NoCache) satisfies cache_inv (every cached "
            "value is the read-only object holding the fresh answer of its key, finals are cached), cache_transparent (all observations of "
            "the history equal the stateless closed-form answers, which are the answers of a fresh use_cache=False object; cached = uncached), "
            "neg_index_interchangeable (rewriting indices to their non-negative spelling gives the identical trace and final state), "
            "answers_readonly, mutate_fails (a write into any answered object raises and changes nothing), clear_keeps_finals. "
            "Tie: exhaustive histories (47-symbol alphabet, length <= 3; 22 symbols, length <= 3 quick / 4 thorough) and random histories "
            "(length <= 25, 2..5 interfaces, all None/True/False normal-side flags, indices -n-2..n+1) on real RayGeometry objects: every "
            "answer is compared by hash with a FRESH use_cache=False object, every returned array is attacked with in-place writes, every "
            "cached value is compared with the fresh answer of its key, and outcome kinds, set(_cache), _final_keys and the identity "
            "partition of returned objects are compared with the Coq state machine evaluated by vm_compute (also for use_cache=False objects).",
    "note": "Trusted: Coq kernel; harness (synthetic Interface/Path/Rays construction, sha1 of array bytes, id()-based identity classes). "
            "Array contents are symbolic terms in the model: numeric equality is checked only on the implementation (hash vs fresh uncached "
            "object). Modelled, not verified: numpy's writeable flag makes in-place writes fail; a caller deliberately resetting "
            "flags.writeable is outside the property. The model describes /repo after fix 37f2364 (inc_* test the resolved index); no other "
            "raw/resolved asymmetry was found (proved: neg_index_interchangeable holds unconditionally), so DESIGN's cache_transparent_refuted "
            "is obsolete and not stated. Histories are sampled/exhausted only up to the stated lengths on the implementation side.",
    "technique": "Coq proof: stratified Hoare-style lemmas per method over a state-and-error monad, heap frame invariant, induction over "
                 "operation lists; vm_compute correspondence on recorded histories (prefix-shared blocks) + differential test against "
                 "fresh uncached objects",
}
TABLE["C02"] = {
    "text": "Coq theorems over the reals, for sample values in any module satisfying DataLaws (proved for the real and the "
            "complex-as-pairs instances), for all frames / tables / weights / fill values / N: each mean kernel as written "
            "(amp nearest, amp linear, noamp nearest, noamp linear [unconditional since the math.floor repair], noamp Lanczos with "
            "periodic index) composed with weigh_timetraces equals das_spec = (1/N) sum_k (in-window ? w_k Atx Arx interp(x_k, l_k) : "
            "fill); unit amplitudes = no amplitudes; l+f(r-l) = (1-f)l+fr; linear nodes/chords; invariance under reordering of the "
            "timetraces; linearity of the image in the data (fill 0); the kernels' integer/float window tests are the spec windows; "
            "dispatch decision table decided over the whole finite request domain (3x16x16x3) by vm_compute; the robust kernels hand "
            "exactly the mean kernel's delayed samples to geomed/huber (any numeric instance), Huber fixed point solves the estimating "
            "equation, geomed's triple is the inverse Hessian / Newton direction, accumulated gradient is the gradient, a stationary "
            "point is a global minimiser (convexity). Tie: arim.im.das.delay_and_sum on real Frame/FocalLaw/TxRxAmplitudes objects vs the "
            "model: class E bit-exact by vm_compute on binary64 (dyadic inputs, sweeps over every quarter-sample position -2..n+2, "
            "float32/64, real/complex, weights, fills 0/NaN/-7, FMC/HMC/subsets/permuted, fresh/preallocated), class T/D at 1e-11 "
            "(float32 1e-5) with decision-margin exclusion, Lanczos/median/Huber through the extracted OCaml model, dispatcher outcome "
            "(kernel or exception class) for all 2304 requests; theorems das_permutation / das_unit_amp / das_linear_in_data and the "
            "optimality of median/Huber outputs are evaluated on the implementation's outputs.",
    "note": "Trusted: Coq kernel + stdlib real axioms; ExtrOcamlBasic extraction, ocaml/common/numf.ml, ocaml/C02/driver.ml; harness. "
            "Partial: convergence of geomed/Huber iterations is not proved (geomed_stationary_is_min_partial; two known findings of the "
            "median aggregation are reproduced from corpus/C02 on every run); rounding, numba fastmath (x/N compiled as x*(1/N): 1-ulp "
            "tolerance when N is not a power of two), dtype promotion and object glue are sampled, not proved; the _general_* kernels are "
            "unreachable from the dispatcher and not modelled.",
    "technique": "Coq proof over R (list induction, ring/field/lra, Flocq Zfloor/ZnearestE, Permutation) + finite decision table by "
                 "vm_compute + PrimFloat vm_compute and extracted-OCaml differential correspondence through the public API",
}
TABLE["C17"] = {
    "text": "Coq theorems over the reals about a per-point model of arim.geometry written once over a Num record (Model/Vec3.v, "
            "Model/Geometry.v): for every orthonormal frame (B B^T = B^T B = I; rows orthonormal is proved sufficient) and origin, "
            "to_gcs/from_gcs are mutually inverse in both orders and preserve every distance and the whole pairwise distance table, for "
            "one frame or one frame per point; CoordinateSystem.convert_* are these maps for the axes (i, j, i x j), a direct frame; "
            "rotate preserves distances and fixes its centre; rotation_matrix_x/y/z/ypr are proper rotations (R R^T = I, det = 1) for all "
            "(cos, sin) on the unit circle / all angles, with the orientation of each elementary matrix; direct_isometry_2d returns a "
            "proper plane rotation with M A + P = A', M B + P = B' (via cos/sin of atan2 proved from cos_atan/sin_atan); "
            "direct_isometry_3d (numpy.linalg.solve as an oracle with A.solve(A,b) = b, shown realizable by Cramer) returns the proper "
            "rotation [u v w][i j k]^T sending i, j, i x j to u, v, u x v and A to B; spherical coordinates satisfy r >= 0, "
            "0 <= theta <= pi, -pi <= phi <= pi, r cos(theta) = z and (full, origin included) r sin(theta) cos(phi) = x, "
            "r sin(theta) sin(phi) = y; distance table entry (i,j) = Euclidean distance; a grid axis has the integer number of points "
            "nearest to L/d + 1 (ZnearestE = Python round), contains both bounds and is evenly spaced when d <= L, is the single point "
            "on a degenerate axis; Grid is the 'ij' meshgrid of its axes and to_1d_points has flat index (ix ny + iy) nz + iz (any "
            "element type); grid_centred_at_point has an odd number n >= max(3, s/p + 1) of points with the centre exactly in the "
            "middle; points_in_rectbox is true exactly when every supplied inclusive bound holds (all 64 subsets, one statement over "
            "option bounds). Tie: real arim functions and the Points/CoordinateSystem/Grid methods against the model, bit for bit "
            "(vm_compute on PrimFloat inside coqc and extracted OCaml) for frame changes on dyadic inputs, distance tables, grid axes / "
            "grids / centred grids on every float, flattening order and box masks, and at 1e-11 (extracted OCaml with libm) for "
            "rotations, isometries, spherical coordinates and frame changes on random floats; the spec predicates are evaluated on the "
            "implementation's outputs to decide whether a failing input was found.",
    "note": "Trusted: Coq kernel + the standard library's real-number axioms (grid_order, grid_is_meshgrid_of_axes are axiom-free); "
            "ExtrOcamlBasic extraction, ocaml/common/numf.ml and ocaml/C17/driver.ml (cross-checked each run against vm_compute on the "
            "class-E cases). Theorems are exact-arithmetic statements about NumR; binary64 rounding is outside them. numpy.linalg.solve "
            "is an oracle (hypothesis A.(solve A b) = b for det A <> 0). Modelled, not verified: numpy broadcasting of point arrays of "
            "any shape and of per-point frames, memory layout, dtype promotion (exercised by generators over shapes (), (n,), (n,m), "
            "(n,m,k), C/F/strided inputs); numpy.linspace's denormal-step branch is not modelled; the assertion tolerances of "
            "direct_isometry_* (numpy.isclose) are modelled and sampled on both sides, the theorems assume the exact equalities.",
    "technique": "Coq proof over R (nsatz/ring/field/lra on 3x3 matrix algebra, Ratan cos_atan/sin_atan, Flocq Zfloor/Zceil/ZnearestE, "
                 "list induction for the flattening order) + PrimFloat vm_compute and extracted-OCaml differential correspondence "
                 "+ spec predicates evaluated on the implementation's outputs",
}
