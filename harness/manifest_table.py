"""Per-property texts for MANIFEST.json (bin/mkmanifest)."""
PROOF = "machine-checked Coq proof (induction/algebra, unbounded) about an executable Gallina model + differential correspondence model vs /repo"
TABLE = {
    "C13": {
        "text": "Coq theorems (axiom-free): chunk_array slices enumerate 0..len-1 exactly once for every length and block size; "
                "tile products partition the output; any permutation of tasks with disjoint write sets yields the same array, "
                "equal to the unchunked kernel. Tie: the task lists really built by find_minimum_times/distance_pairwise/chunk_array "
                "are compared with the model evaluated by vm_compute; the theorem's premises (disjoint covering write regions, "
                "inputs untouched) are checked on the real views and the tasks are re-executed in all/many orders, with real pools "
                "and 1..16 numba threads.",
        "note": "Trusted: Coq kernel; harness (recording executor substituted from outside). Partial: atomic-task schedule space is proved; "
                "numba's threading layer, OS scheduling and races inside a task are only sampled.",
        "technique": "Coq proof by induction over task lists / Permutation + vm_compute correspondence on recorded task lists",
    },
}
TABLE["C06"] = {
    "text": "Coq theorems over the reals: for any number of legs the model of beamspread_2d_for_path equals the amplitude of the "
            "infinitesimal ray tube (list induction with a telescoping invariant), the code's gamma is the Snell tube factor beta, "
            "d = r in one medium, scaling by s gives 1/sqrt(s). Tie: the extracted model (OCaml float instance) is run on leg lengths, "
            "velocities and angles read from real RayGeometry objects and compared ray by ray with arim.model.beamspread_2d_for_path "
            "(and the reverse variant); on disagreement the extracted tube spec decides whether the input is a failing input.",
    "note": "Trusted: Coq kernel + real-number axioms of the standard library; ExtrOcamlBasic extraction, ocaml/common/numf.ml and driver; "
            "theorems are exact-arithmetic, binary64 rounding is outside them (tolerance 1e-11). The derivative argument that beta is the "
            "ray-tube law (curvature_transfer) is stated in DESIGN and not yet mechanised.",
    "technique": "Coq proof over R (list induction, field/lra) + extracted-OCaml differential correspondence",
}
TABLE["C11"] = {
    "text": "Coq theorems: toneburst length odd, symmetric, peak exactly 1 at the centre / at time zero (make_toneburst2), |.|<=1, "
            "zero outside and at both ends of the window, wrapped peak at sample 0; Hilbert weights of rfft_to_hilbert equal the "
            "analytic-signal weights for both parities; shift theorem for the finite Fourier sum (whole-sample delay = circular "
            "shift; zero delay = identity); the delay split q = nearest sample, |rem| <= dt/2, q*dt+rem = d; a delay on sample k "
            "adds response sample i at output sample k - t0 + i and nothing else. Tie: extracted model vs make_toneburst/"
            "make_toneburst2 sample by sample (and accepted/rejected arguments), model weights vs weights recovered from "
            "rfft_to_hilbert, FFT oracles vs the finite Fourier sum, delay split on exact rationals (NumQ in coqc) vs the slice really "
            "written; spec predicates on the implementation for every fitting delay k*dt, k*dt +- ulp and random fractional delays.",
    "note": "Partial: for fractional remainders the half-sample peak criterion is measured, not proved (peak_within_half_sample_partial). "
            "numpy.fft/scipy.fftpack are oracles for the Fourier sums. Trusted: Coq kernel + Reals axioms, extraction, numf.ml, driver.",
    "technique": "Coq proof over R/C (trigonometric identities, Flocq rounding lemmas, finite sums) + extracted-OCaml and vm_compute correspondence",
}
NOT_APPLICABLE = {}
TABLE["C15"] = {
    "text": "Coq theorems (axiom-free, list induction) about an executable model of arim's frame bookkeeping: fmc / hmc list every "
            "ordered / unordered element pair exactly once (for all n, with their storage order); infer_capture_method is invariant "
            "under permutation, recognises every permutation of FMC and of HMC in either orientation (n=1 reported as hmc) and nothing "
            "else (soundness: hmc/fmc answers imply a permutation); default weights are 1 iff the mirrored pair is present, else 2, and "
            "sum to n^2 on an HMC; expand_frame_assuming_reciprocity never raises and yields exactly the recorded pairs and their "
            "mirrors, duplicate-free, in increasing tuple order, each row carrying the recorded row of its pair and only otherwise the "
            "mirrored one, is complete and idempotent; subframe_from_probe_elements keeps exactly the rows with both elements retained, "
            "in order, with E[new]=old so that sub-probe attributes (locations) of the new indices equal those of the old ones (with and "
            "without sub-probe, also for repeated elements), never raising on valid input; for every finite chain of subframe / "
            "subframe_from_probe_elements / expand / apply_filter the invariant 'row label = physical (tx, rx) elements it was recorded "
            "with' (up to the mirror introduced by expansion; exact without expansion) is preserved and no row is invented. "
            "Tie: real arim.Frame/Probe objects whose samples and per-element attributes encode physical labels; chains of 1-6 "
            "operations with slices of every step sign, boolean masks, permuted / negative / repeated / out-of-range integer lists; "
            "after every step tx, rx, payload and probe labels are compared exactly with the model evaluated by vm_compute in coqc, and "
            "the spec predicates (brute-force definitions) are evaluated on the implementation's output; fmc, hmc, infer, weights, the "
            "duplicate check, get_timetrace, is_complete separately.",
    "note": "Trusted: Coq kernel; harness normalisation of slices/masks to arange(n)[idx]. Modelled, not verified: numpy fancy indexing, "
            "np.isin, CPython set/dict semantics (exercised by the tie). apply_filter is covered for row-wise filters only (premise "
            "filter_ok; the harness uses scalar multiples). Scalar (non-list) indices and tuple indices are outside the property.",
    "technique": "Coq proof by list induction (NoDup / Permutation / StronglySorted) + vm_compute correspondence on chains of operations",
}
