"""Per-property texts for MANIFEST.json (bin/mkmanifest)."""
PROOF = "machine-checked Coq proof (induction/algebra, unbounded) about an executable Gallina model + differential correspondence model vs /repo"
TABLE = {
    "C13": {
        "text": "Coq theorems (axiom-free): chunk_array slices enumerate 0..len-1 exactly once for every length and block size; "
                "tile products partition the output; any permutation of tasks with disjoint write sets yields the same array, "
                "equal to the unchunked kernel. Tie: the task lists really built by find_minimum_times/distance_pairwise/chunk_array "
                "are compared with the model evaluated by vm_compute; the theorem's premises (disjoint covering write regions, "
                "inputs untouched) are checked on the real views and the tasks are re-executed in all/many orders, with real pools "
                "and 1..16 numba threads.",
        "note": "Trusted: Coq kernel; harness (recording executor substituted from outside). Partial: atomic-task schedule space is proved; "
                "numba's threading layer, OS scheduling and races inside a task are only sampled.",
        "technique": "Coq proof by induction over task lists / Permutation + vm_compute correspondence on recorded task lists",
    },
}
TABLE["C06"] = {
    "text": "Coq theorems over the reals: for any number of legs the model of beamspread_2d_for_path equals the amplitude of the "
            "infinitesimal ray tube (list induction with a telescoping invariant), the code's gamma is the Snell tube factor beta, "
            "d = r in one medium, scaling by s gives 1/sqrt(s). Tie: the extracted model (OCaml float instance) is run on leg lengths, "
            "velocities and angles read from real RayGeometry objects and compared ray by ray with arim.model.beamspread_2d_for_path "
            "(and the reverse variant); on disagreement the extracted tube spec decides whether the input is a failing input.",
    "note": "Trusted: Coq kernel + real-number axioms of the standard library; ExtrOcamlBasic extraction, ocaml/common/numf.ml and driver; "
            "theorems are exact-arithmetic, binary64 rounding is outside them (tolerance 1e-11). The derivative argument that beta is the "
            "ray-tube law (curvature_transfer) is stated in DESIGN and not yet mechanised.",
    "technique": "Coq proof over R (list induction, field/lra) + extracted-OCaml differential correspondence",
}
TABLE["C11"] = {
    "text": "Coq theorems: toneburst length odd, symmetric, peak exactly 1 at the centre / at time zero (make_toneburst2), |.|<=1, "
            "zero outside and at both ends of the window, wrapped peak at sample 0; Hilbert weights of rfft_to_hilbert equal the "
            "analytic-signal weights for both parities; shift theorem for the finite Fourier sum (whole-sample delay = circular "
            "shift; zero delay = identity); the delay split q = nearest sample, |rem| <= dt/2, q*dt+rem = d; a delay on sample k "
            "adds response sample i at output sample k - t0 + i and nothing else. Tie: extracted model vs make_toneburst/"
            "make_toneburst2 sample by sample (and accepted/rejected arguments), model weights vs weights recovered from "
            "rfft_to_hilbert, FFT oracles vs the finite Fourier sum, delay split on exact rationals (NumQ in coqc) vs the slice really "
            "written; spec predicates on the implementation for every fitting delay k*dt, k*dt +- ulp and random fractional delays.",
    "note": "Partial: for fractional remainders the half-sample peak criterion is measured, not proved (peak_within_half_sample_partial). "
            "numpy.fft/scipy.fftpack are oracles for the Fourier sums. Trusted: Coq kernel + Reals axioms, extraction, numf.ml, driver.",
    "technique": "Coq proof over R/C (trigonometric identities, Flocq rounding lemmas, finite sums) + extracted-OCaml and vm_compute correspondence",
}
TABLE["C10"] = {
    "text": "Coq theorems (half period P a parameter, instantiated with pi): matrix entry [j,i] = f(-P+2Pi/n, -P+2Pj/n); the "
            "interpolation kernel returns the entries at the nodes, the bilinear form of the four neighbours (indices modulo n) in "
            "between, is 2P-periodic in both angles and agrees at +-P; index in [0,n) and fraction in [0,1) for every real angle; "
            "rotation by k grid steps commutes with shifting both indices; the FFT route of rotate_matrix is that circular shift "
            "(2-D finite Fourier sums, signed fftfreq indices); linear frequency interpolation reproduces the samples. Tie: "
            "extracted model vs interpolate_matrix on real/complex matrices n=2..33 (nodes, node+-ulp, seam, +-3 periods), model "
            "angles vs make_angles, shifted-matrix model vs rotate_matrix, lerp vs ScatFromData; spec predicates evaluated on the "
            "implementation (nodes, periodicity, seam, midpoint rule, rotate = roll, layout of real scatterer matrices, data "
            "reproduced at sampled frequencies, MAT round trip for every key subset and frequencies shape).",
    "note": "Oracles: numpy.fft (finite Fourier sums), scipy interp1d, MAT I/O. Python float // and % are modelled by their exact meaning "
            "(the interpolant is continuous, so node-boundary rounding is inside the 1e-11 tolerance). Trusted: Coq kernel + Reals axioms, "
            "extraction, numf.ml, driver.",
    "technique": "Coq proof over R/C (Flocq floor lemmas, modular arithmetic, finite Fourier sums) + extracted-OCaml differential correspondence",
}
NOT_APPLICABLE = {}
TABLE["C15"] = {
    "text": "Coq theorems (axiom-free, list induction) about an executable model of arim's frame bookkeeping: fmc / hmc list every "
            "ordered / unordered element pair exactly once (for all n, with their storage order); infer_capture_method is invariant "
            "under permutation, recognises every permutation of FMC and of HMC in either orientation (n=1 reported as hmc) and nothing "
            "else (soundness: hmc/fmc answers imply a permutation); default weights are 1 iff the mirrored pair is present, else 2, and "
            "sum to n^2 on an HMC; expand_frame_assuming_reciprocity never raises and yields exactly the recorded pairs and their "
            "mirrors, duplicate-free, in increasing tuple order, each row carrying the recorded row of its pair and only otherwise the "
            "mirrored one, is complete and idempotent; subframe_from_probe_elements keeps exactly the rows with both elements retained, "
            "in order, with E[new]=old so that sub-probe attributes (locations) of the new indices equal those of the old ones (with and "
            "without sub-probe, also for repeated elements), never raising on valid input; for every finite chain of subframe / "
            "subframe_from_probe_elements / expand / apply_filter the invariant 'row label = physical (tx, rx) elements it was recorded "
            "with' (up to the mirror introduced by expansion; exact without expansion) is preserved and no row is invented. "
            "Tie: real arim.Frame/Probe objects whose samples and per-element attributes encode physical labels; chains of 1-6 "
            "operations with slices of every step sign, boolean masks, permuted / negative / repeated / out-of-range integer lists; "
            "after every step tx, rx, payload and probe labels are compared exactly with the model evaluated by vm_compute in coqc, and "
            "the spec predicates (brute-force definitions) are evaluated on the implementation's output; fmc, hmc, infer, weights, the "
            "duplicate check, get_timetrace, is_complete separately.",
    "note": "Trusted: Coq kernel; harness normalisation of slices/masks to arange(n)[idx]. Modelled, not verified: numpy fancy indexing, "
            "np.isin, CPython set/dict semantics (exercised by the tie). apply_filter is covered for row-wise filters only (premise "
            "filter_ok; the harness uses scalar multiples). Scalar (non-list) indices and tuple indices are outside the property.",
    "technique": "Coq proof by list induction (NoDup / Permutation / StronglySorted) + vm_compute correspondence on chains of operations",
}
TABLE["C18"] = {
    "text": "Coq theorems (axiom-free) about an executable model of arim's view/path naming: for every duplicate-free list of path "
            "names make_viewnames lists every ordered pair exactly once (n^2, a permutation of the product) in strictly ascending "
            "documented order (the Python key tuple compared as tuples is proved equal to the documented criteria, a strict total "
            "order, with Python's stable sort modelled as a stable insertion sort); reciprocal_viewname is an involution; "
            "filter_unique_views on any duplicate-free list keeps the order, keeps v iff v is the first member of {v, recip v}, hence "
            "exactly one member of every class for reversal-closed name sets, and never drops a view whose reciprocal is absent; "
            "for all 10 examination objects (immersion with/without back wall; contact with/without front wall, back wall, "
            "under-material) and every max_number_of_reflection in Z, make_interfaces+make_paths equal the independently written "
            "documented wiring (names in order, block modes = the name, interface sequence, kinds, transmission/reflection, "
            "reflection_against, normal-side flags derived from the up/down direction of the legs, materials) or raise in the "
            "documented cases (finite part by vm_compute, bound in the statement); make_views_from_paths on any dictionary gives view "
            "X-Y = (paths[X], paths[reversed Y]) and succeeds iff the keys are reversal-closed; in every configuration view X-Y has "
            "tx block legs X, rx block legs reversed Y and scat_key last(X)+first(Y); Path.reverse, Interface.reverse, Rays.reverse "
            "are involutions (modes, materials, kinds, flags, rays; reversed indices = same rays backwards) and are defined on every "
            "configuration path. Tie (all exact): the real make_viewnames / filter_unique_views / reciprocal_viewname on random "
            "reversal-closed and arbitrary name sets (words up to 5 letters, order_func default/None, unique on/off), the real "
            "make_interfaces, make_paths, make_views of block_in_immersion and block_in_contact for every configuration and "
            "max_number_of_reflection -2..7, make_views_from_paths on random sub-dictionaries, Interface(...) and Interface.reverse on "
            "every attribute combination, Path.reverse with random Rays on configuration and random paths: names, order, modes, "
            "materials and points by identity, kinds, flags, normal sides, scat_key, error class and rays arrays are compared with the "
            "model evaluated by vm_compute in coqc; the spec predicates (n^2 pairs once, sortedness by the written-out criteria, one "
            "and the first of each class, tx/rx wiring and object identity, documented interface sequences, double reversal) are "
            "evaluated directly on the implementation's outputs.",
    "note": "Trusted: Coq kernel; harness encoding of arim objects as integers (identity of points/materials, enum members). "
            "Points, orientations and materials are opaque (identity only). Path names are words over {L,T}; other strings are outside "
            "the model. Which exception type reports a missing wall/name (KeyError vs ValueError) is not part of the property and is "
            "compared as one class. The count n(n+1)/2 of unique views is checked at run time and by Examples (21, 105), not stated "
            "as a general theorem. Python object plumbing (OrderedDict, namedtuple, numpy transposition) is exercised by the tie only.",
    "technique": "Coq proof by list induction (Permutation / NoDup / StronglySorted, lexicographic comparison combinators) + finite "
                 "case analysis by vm_compute + vm_compute correspondence on every configuration and random name sets",
}
